"""Driver: ./check <id> --tier quick|thorough [--replay path]

Per property: generate obligations from /repo's current source (pyvc), discharge them, apply the known-findings
protocol, concretise and replay failures on the real code, run the bounded layer, write evidence, exit.
"""
from __future__ import annotations

import argparse
import hashlib
import importlib
import json
import multiprocessing as mp
import os
import sys
import time
import traceback
from typing import Any, Dict, List, Optional, Tuple

ROOT = os.path.dirname(os.path.dirname(os.path.abspath(__file__)))
# evidence under /verif/evidence describes /repo itself; a run against a scratch copy (FSIC_REPO) writes elsewhere unless told otherwise
_SCRATCH_RUN = bool(os.environ.get('FSIC_REPO')) and os.path.realpath(os.environ['FSIC_REPO']) != os.path.realpath('/repo')
EVIDENCE_DIR = os.environ.get('VERIF_EVIDENCE_DIR') or os.path.join(ROOT, '.scratch/evidence' if _SCRATCH_RUN else 'evidence')
REPLAY_DIR = os.environ.get('VERIF_REPLAY_DIR') or os.path.join(ROOT, 'replays')
KNOWN = os.path.join(ROOT, 'known_findings.json')


BASELINE_DIR = os.path.join(ROOT, 'baseline')


def tree_hash() -> str:
    """Hash of the fsic sources the obligations are generated from."""
    import re as _re
    root = os.path.join(os.environ.get('FSIC_REPO', '/repo'), 'fsic')
    h = hashlib.sha256()
    for d, _, files in sorted(os.walk(root)):
        for f in sorted(files):
            if f.endswith('.py'):
                with open(os.path.join(d, f), 'rb') as fh:
                    h.update(f.encode() + b'\0' + fh.read())
    return h.hexdigest()


def ob_key(o: dict) -> str:
    import re as _re
    return f"{o['contract']}|{o['scenario']}|" + _re.sub(r'@L\d+', '', o['name'])


def load_baseline(pid: str) -> Optional[dict]:
    p = os.path.join(BASELINE_DIR, f'{pid}.json')
    if not os.path.exists(p):
        return None
    with open(p) as f:
        return json.load(f)


def load_known() -> List[dict]:
    if not os.path.exists(KNOWN):
        return []
    with open(KNOWN) as f:
        return json.load(f)['findings']


def load_property(pid: str):
    mod = importlib.import_module(f'props.{pid.lower()}')
    return mod.PROPERTY


# --------------------------------------------------------------------------------------------------
# deductive worker (one contract per task; z3 terms never cross process boundaries)
# --------------------------------------------------------------------------------------------------
def _deductive_task(arg) -> dict:
    pid, idx, tier, scen, shard, nshards = arg
    t0 = time.time()
    try:
        from pyvc.contracts import generate
        from pyvc.solve import discharge, cross_check
        import z3
        prop = load_property(pid)
        contract = prop.contracts[idx]
        budget = 5000 if tier == 'quick' else 30000
        rep = contract.custom_generate(scen) if hasattr(contract, 'custom_generate') else generate(contract, scenarios=[scen])
        known = [k for k in load_known() if k.get('status') == 'open' and k.get('kind', 'deductive') == 'deductive'
                 and pid in k.get('properties', [k.get('property')])]
        obs = []
        retries_left = 2
        mine = [ob for ob in rep.obligations if pid in ob.props]
        open_count = 0
        for k, ob in enumerate(mine):
            if k % nshards != shard:
                continue
            if open_count >= 5:
                # enough obligations of this shard are open to report; the remaining ones are not attempted on this run (they are listed as skipped)
                obs.append({'name': ob.name, 'kind': ob.kind, 'scenario': ob.scenario, 'path': list(ob.path), 'status': 'skipped', 'backend': 'not attempted',
                            'seconds': 0.0, 'model': None, 'line': ob.line, 'model_values': None, 'known': None, 'smt2_sha': None})
                continue
            inputs = getattr(ob, 'inputs', None)
            regions = []
            for k in known:
                if k['obligation'] in ob.name and k.get('contract', contract.qualname) == contract.qualname:
                    rfun = getattr(contract, 'regions', {}).get(k['region'])
                    if rfun is not None:
                        regions.append((k, rfun))
            # obligations with a listed finding: one e-matching attempt as stated, then the carve-out (DESIGN 8.2)
            # (as stated: a short attempt suffices - if the defect were gone the obligation would discharge in milliseconds like its neighbours)
            discharge(ob, budget_ms=(budget if not regions else max(1000, budget // 4)), inputs=inputs, want_smt2=(tier == 'thorough'), try_mbqi=not regions)
            if ob.status == 'undecided' and not regions and ob.seconds * 1000 >= budget * 0.9 and retries_left > 0:
                # one retry with 10x budget (DESIGN 9.5) - for the odd obligation slowed down by a busy machine; when many obligations
                # of a shard are open the cause is not load, and retrying each of them only delays the report
                retries_left -= 1
                discharge(ob, budget_ms=budget * 10, inputs=inputs)
            d = {'name': ob.name, 'kind': ob.kind, 'scenario': ob.scenario, 'path': list(ob.path), 'status': ob.status,
                 'backend': ob.backend, 'seconds': round(ob.seconds, 3), 'model': ob.model, 'line': ob.line,
                 'model_values': getattr(ob, 'model_values', None), 'known': None, 'smt2_sha': None}
            if ob.status != 'discharged':
                # known-findings protocol (DESIGN 8.2): re-prove under "input not in any listed region"
                if regions and inputs is not None:
                    carve = [z3.Not(rf(inputs, ob)) for _, rf in regions]
                    from pyvc.ctx import Obligation
                    ob2 = Obligation(ob.name, ob.kind, ob.props, list(ob.hyps) + carve, ob.goal, ob.scenario, ob.path, ob.line)
                    discharge(ob2, budget_ms=budget, inputs=inputs)
                    if ob2.status == 'discharged':
                        d['known'] = [k['id'] for k, _ in regions]
                        d['status'] = 'known-finding'
                    else:
                        d['outside_region_status'] = ob2.status
                        d['model'] = ob2.model or d['model']
                        d['model_values'] = getattr(ob2, 'model_values', None) or d['model_values']
                d['smt2'] = getattr(ob, 'smt2', None)
            if tier == 'thorough' and getattr(ob, 'smt2', None):
                d['smt2_sha'] = hashlib.sha256(ob.smt2.encode()).hexdigest()[:16]
                if ob.kind in ('ensures', 'raises', 'frame', 'lemma') and idx >= 0:
                    d['cross'] = cross_check(ob, timeout_s=20)
            if d['status'] not in ('discharged', 'known-finding'):
                open_count += 1
            obs.append(d)
        return {'contract': contract.qualname, 'scenario': scen, 'shard': shard, 'sha256': rep.sha256, 'paths': rep.paths, 'obligations': obs,
                'out_of_subset': rep.out_of_subset, 'assumptions': sorted(rep.assumptions), 'covers': sorted(rep.covers),
                'assumption_text': {a: __import__('pyvc.libspec', fromlist=['ASSUMPTIONS']).ASSUMPTIONS.get(a, '') for a in rep.assumptions},
                'outcomes': rep.outcomes, 'gen_seconds': round(rep.seconds, 2), 'seconds': round(time.time() - t0, 2),
                'error': None, 'scenarios': list(rep.scenarios)}
    except Exception as ex:  # noqa: BLE001
        try:
            qn = load_property(pid).contracts[idx].qualname
        except Exception:  # noqa: BLE001
            qn = f'{pid}#{idx}'
        return {'contract': qn, 'scenario': scen, 'shard': shard, 'error': f'{type(ex).__name__}: {ex}\n{traceback.format_exc()}', 'obligations': [],
                'out_of_subset': [], 'assumptions': [], 'covers': [], 'outcomes': {}, 'paths': 0, 'sha256': '', 'seconds': 0,
                'gen_seconds': 0, 'scenarios': []}


def _bounded_task(arg) -> dict:
    pid, idx, tier, seed = arg
    try:
        prop = load_property(pid)
        chk = prop.bounded[idx]
        res = chk.run(tier, seed)
        out = res.summary()
        out['violation_list'] = [v.to_json() for v in res.violations]
        out['required_covers'] = list(chk.required_covers)
        out['error'] = None
        return out
    except Exception as ex:  # noqa: BLE001
        return {'name': f'{pid}#bounded{idx}', 'error': f'{type(ex).__name__}: {ex}\n{traceback.format_exc()}',
                'evaluations': 0, 'distinct_nontrivial': 0, 'violations': 0, 'violation_list': [], 'covers': {},
                'required_covers': [], 'samples': [], 'bound': '', 'seconds': 0}


def _any_task(job):
    kind, i, arg = job
    crash = os.environ.get('VERIF_TEST_CRASH')          # self-test of the crash handling: "<kind><index>[:always]" makes that task's worker die
    if crash and crash.split(':')[0] == f'{kind}{i}':
        flag = os.path.join(os.environ.get('TMPDIR', '/tmp'), f'verif-crash-{os.getppid()}')
        if crash.endswith(':always') or not os.path.exists(flag):
            open(flag, 'w').close()
            import signal
            os.kill(os.getpid(), signal.SIGSEGV)
    return kind, i, (_bounded_task(arg) if kind == 'b' else _deductive_task(arg))


def merge_shards(results: List[dict]) -> List[dict]:
    """One record per contract: union over scenarios and shards."""
    by: Dict[str, dict] = {}
    for r in results:
        k = r['contract']
        if k not in by:
            by[k] = dict(r, scenarios=[], obligations=[], out_of_subset=[], assumptions=set(), covers=set(), outcomes={},
                         paths=0, seconds=0.0, gen_seconds=0.0)
            by[k].pop('scenario', None)
            by[k].pop('shard', None)
        m = by[k]
        m['obligations'] += r['obligations']
        m['assumptions'] |= set(r['assumptions'])
        m['covers'] |= set(r['covers'])
        m['seconds'] += r['seconds']
        if r.get('error'):
            m['error'] = r['error']
        if r.get('shard', 0) == 0:
            m['paths'] += r['paths']
            m['gen_seconds'] += r['gen_seconds']
            m['outcomes'].update(r['outcomes'])
            m['out_of_subset'] += r['out_of_subset']
            if r.get('scenario') is not None:
                m['scenarios'].append(r['scenario'])
    for m in by.values():
        m['assumptions'] = sorted(m['assumptions'])
        m['covers'] = sorted(m['covers'])
    return list(by.values())


# --------------------------------------------------------------------------------------------------
def write_replay(pid: str, name: str, payload: dict) -> str:
    os.makedirs(REPLAY_DIR, exist_ok=True)
    h = hashlib.sha256(json.dumps(payload, sort_keys=True, default=str).encode()).hexdigest()[:12]
    safe = ''.join(c if c.isalnum() or c in '._-' else '_' for c in name)[:80]
    path = os.path.join(REPLAY_DIR, f'{pid}-{safe}-{h}.json')
    _write_json_atomically(path, payload)
    return path


def _write_json_atomically(path: str, payload) -> None:
    """Write next to the target and rename over it: a concurrent run of the same check never leaves or reads a half-written file."""
    tmp = f'{path}.{os.getpid()}.tmp'
    with open(tmp, 'w') as f:
        json.dump(payload, f, indent=1, default=str)
    os.replace(tmp, path)


def do_replay(pid: str, path: str) -> int:
    with open(path) as f:
        payload = json.load(f)
    prop = load_property(pid)
    if payload.get('bounded_check'):
        chk = next(c for c in prop.bounded if c.name == payload['bounded_check'])
        vs = chk.replay(payload['case'])
        if vs:
            for v in vs:
                print(f'REPRODUCED clause={v.clause} expected={v.expected!r} observed={v.observed!r}')
            print(f'VIOLATION property={pid} replay={path}')
            return 1
        print('not reproduced on the current tree')
        return 0
    print(f'replay file names obligation {payload.get("obligation")} with no concrete input; solver output:')
    print(payload.get('solver_output'))
    return 0


def main(argv=None) -> int:
    ap = argparse.ArgumentParser()
    ap.add_argument('pid')
    ap.add_argument('--tier', default=os.environ.get('VERIF_TIER', 'quick'), choices=['quick', 'thorough'])
    ap.add_argument('--replay')
    ap.add_argument('--jobs', type=int, default=int(os.environ.get('VERIF_JOBS', '16')))
    ap.add_argument('--no-bounded', action='store_true')
    ap.add_argument('--update-baseline', action='store_true', help='record the obligations discharged on this tree (deliberate act; DESIGN 7.3)')
    args = ap.parse_args(argv)
    pid = args.pid.upper()
    seed = int(os.environ.get('VERIF_SEED', '0'))
    if args.replay:
        return do_replay(pid, args.replay)

    os.environ['VERIF_TIER'] = args.tier       # property modules size their program catalogues by tier
    t0 = time.time()
    try:
        prop = load_property(pid)
    except Exception as ex:  # noqa: BLE001
        print(f'CHECKER-ERROR cannot load property {pid}: {ex}')
        traceback.print_exc()
        return 3
    known = load_known()
    prop.known_sigs = {k['sig'] for k in known if k.get('kind') == 'bounded' and k.get('status') == 'open'}
    tasks_d = []
    for i, c in enumerate(prop.contracts):
        for scen in c.scenarios():
            k = getattr(c, 'shards', {}).get(scen, 1)
            for sh in range(k):
                tasks_d.append((pid, i, args.tier, scen, sh, k))
    tasks_b = [] if args.no_bounded else [(pid, i, args.tier, seed) for i in range(len(prop.bounded))]
    ctxm = mp.get_context('fork')
    # Bounded tasks are queued first.  Once every bounded task has reported and at least one of them holds a violation that no listed finding
    # explains (an input replayed on the real code), the verdict of this run is settled: deductive tasks still running are abandoned (their
    # obligations are reported as not attempted) instead of spending their time-outs on a tree that is already known to break the property.
    open_sigs = {k['sig'] for k in known if k.get('kind') == 'bounded' and k.get('status') == 'open'}
    early_stop = False
    ded_by_i, bnd_by_i = {}, {}
    # Workers can die (a segmentation fault inside the solver library has been observed once in several thousand runs): a pool that loses a worker
    # would wait for its task for ever, so tasks run under an executor that reports a broken pool; unfinished tasks are then re-run in a fresh pool
    # (twice at most), and the whole run has a deadline after which whatever is missing is reported as a checker failure - never a hang.
    import concurrent.futures as cf
    jobs = [('b', i, t) for i, t in enumerate(tasks_b)] + [('d', i, t) for i, t in enumerate(tasks_d)]
    pending = list(jobs)
    crashed_once = set()
    deadline = time.time() + float(os.environ.get('VERIF_DEADLINE_S', '2400' if args.tier == 'quick' else '10800'))
    run_notes: List[str] = []
    for attempt in range(3):
        if not pending or early_stop:
            break
        ex = cf.ProcessPoolExecutor(max_workers=min(args.jobs, max(1, len(pending))), mp_context=ctxm)
        futs = {ex.submit(_any_task, j): j for j in pending}
        broken = False
        try:
            for fut in cf.as_completed(futs, timeout=max(1.0, deadline - time.time())):
                try:
                    kind, i, r = fut.result()
                except Exception as exn:  # noqa: BLE001 - BrokenProcessPool and friends: the task did not finish
                    broken = True
                    continue
                (bnd_by_i if kind == 'b' else ded_by_i)[i] = r
                if len(bnd_by_i) == len(tasks_b) and tasks_b and len(ded_by_i) < len(tasks_d) and os.environ.get('VERIF_NO_EARLY_STOP') != '1':
                    fresh = [v for rr in bnd_by_i.values() for v in rr.get('violation_list', [])
                             if v['sig'] not in open_sigs and not v['sig'].startswith('encoder.')]
                    if fresh and not any(rr.get('error') for rr in bnd_by_i.values()):
                        early_stop = True
                        break
        except cf.TimeoutError:
            run_notes.append(f'CHECKER-ERROR run deadline reached with {len([j for j in pending if (j[1] not in (bnd_by_i if j[0] == "b" else ded_by_i))])} task(s) unfinished')
            broken = True
        finally:
            for f_ in futs:
                f_.cancel()
            procs = list(getattr(ex, '_processes', {}).values())
            ex.shutdown(wait=False, cancel_futures=True)
            for pr in procs:
                try:
                    pr.kill()
                except Exception:  # noqa: BLE001
                    pass
        pending = [j for j in jobs if j[1] not in (bnd_by_i if j[0] == 'b' else ded_by_i)]
        if not broken or time.time() >= deadline:
            break
        run_notes.append(f'note: a worker process died (attempt {attempt + 1}); {len(pending)} unfinished task(s) are run again in a fresh pool')
        if attempt == 1 and pending:
            # last attempt: every unfinished task in a process of its own, so that a task that kills its worker again loses only itself
            def isolated(job):
                e1 = cf.ProcessPoolExecutor(max_workers=1, mp_context=ctxm)
                try:
                    return e1.submit(_any_task, job).result(timeout=max(1.0, deadline - time.time()))
                except Exception:  # noqa: BLE001
                    return None
                finally:
                    procs1 = list(getattr(e1, '_processes', {}).values())
                    e1.shutdown(wait=False, cancel_futures=True)
                    for pr in procs1:
                        try:
                            pr.kill()
                        except Exception:  # noqa: BLE001
                            pass
            with cf.ThreadPoolExecutor(max_workers=min(args.jobs, len(pending))) as tp:
                for out_ in tp.map(isolated, pending):
                    if out_ is not None:
                        kind, i, r = out_
                        (bnd_by_i if kind == 'b' else ded_by_i)[i] = r
            pending = [j for j in jobs if j[1] not in (bnd_by_i if j[0] == 'b' else ded_by_i)]
            break
    if pending and not early_stop:
        for kind, i, t in pending:
            err = {'error': 'worker process died or run deadline reached before this task finished (no result)', 'obligations': [], 'out_of_subset': [], 'assumptions': [],
                   'covers': [], 'outcomes': {}, 'paths': 0, 'sha256': '', 'seconds': 0, 'gen_seconds': 0, 'scenarios': []}
            if kind == 'd':
                try:
                    qn = prop.contracts[t[1]].qualname
                except Exception:  # noqa: BLE001
                    qn = f'{pid}#{t[1]}'
                ded_by_i[i] = dict(err, contract=qn, scenario=t[3], shard=t[4], crashed=True)
            else:
                bnd_by_i[i] = {'name': f'{pid}#bounded{t[1]}', 'error': err['error'], 'evaluations': 0, 'distinct_nontrivial': 0, 'violations': 0, 'violation_list': [], 'covers': {},
                               'required_covers': [], 'samples': [], 'bound': '', 'seconds': 0}
    bnd = [bnd_by_i[i] for i in sorted(bnd_by_i)]
    ded = [ded_by_i[i] for i in sorted(ded_by_i)]

    raw_ded = ded
    ded = merge_shards(ded)
    exit_code = 0
    lines: List[str] = []
    violations: List[Tuple[str, str]] = []
    known_printed = set()
    baseline = load_baseline(pid)
    cur_tree = tree_hash()
    checker_errors = []
    for r in bnd:
        if r.get('error'):
            checker_errors.append(r['error'])
    # a contract that can no longer be applied to the function (the generator raised while walking the changed source, e.g. a loop
    # without a loop contract): on a tree that differs from the baseline tree, every obligation of that contract/scenario that was
    # discharged on the baseline is lost - reported as such (DESIGN 7.3); on the baseline tree itself it is a checker failure
    for r in raw_ded:
        if not r.get('error'):
            continue
        lost = []
        if baseline is not None and baseline['tree'] != cur_tree and not r.get('crashed'):
            pref = f"{r['contract']}|{r['scenario']}|"
            lost = [k for k in baseline['discharged'] if k.startswith(pref)]
        if lost:
            path = write_replay(pid, f"{r['contract']}-contract-does-not-apply", {
                'property': pid, 'obligation': f"{r['contract']}/contract-applies [{r['scenario']}]", 'contract': r['contract'], 'scenario': r['scenario'],
                'reason': 'the contract (pre/postcondition, loop contracts, call contracts) could not be applied to the current source of the function; '
                          'the obligations listed were discharged on the baseline tree and cannot be generated on this one',
                'lost_obligations': lost, 'baseline_tree': baseline['tree'], 'current_tree': cur_tree, 'generator_output': r['error']})
            violations.append((f"{r['contract']}/contract-applies", path))
            lines.append(f"VIOLATION property={pid} replay={path} no-failing-input-found")
            lines.append(f"  obligation {r['contract']}/contract-applies [{r['scenario']}]: {len(lost)} obligations discharged on the baseline tree cannot be generated "
                         f"from the current source ({r['error'].splitlines()[0][:160]})")
        else:
            checker_errors.append(r['error'])
    # the same for code that has left the verified subset: a path of the changed function the generator cannot follow (reported as
    # OUT-OF-SUBSET) on which obligations that were discharged on the baseline tree are no longer generated
    if baseline is not None and baseline['tree'] != cur_tree:
        seen_cs = set()
        for r in raw_ded:
            if r.get('error') or not r.get('out_of_subset') or r.get('shard', 0) != 0:
                continue
            cs = (r['contract'], r['scenario'])
            if cs in seen_cs:
                continue
            seen_cs.add(cs)
            pref = f"{r['contract']}|{r['scenario']}|"
            now = {ob_key(dict(o, contract=r['contract'])) for rr in raw_ded if rr['contract'] == r['contract'] and rr.get('scenario') == r['scenario'] for o in rr['obligations']
                   if o['status'] == 'discharged'}
            lost = [k for k in baseline['discharged'] if k.startswith(pref) and k not in now]
            if not lost:
                continue
            path = write_replay(pid, f"{r['contract']}-outside-the-verified-subset", {
                'property': pid, 'obligation': f"{r['contract']}/contract-applies [{r['scenario']}]", 'contract': r['contract'], 'scenario': r['scenario'],
                'reason': 'the current source of the function uses a construct outside the subset the generator encodes on a path where obligations were discharged '
                          'on the baseline tree; those obligations cannot be generated on this tree',
                'lost_obligations': lost, 'baseline_tree': baseline['tree'], 'current_tree': cur_tree, 'generator_output': r['out_of_subset']})
            violations.append((f"{r['contract']}/contract-applies", path))
            lines.append(f"VIOLATION property={pid} replay={path} no-failing-input-found")
            lines.append(f"  obligation {r['contract']}/contract-applies [{r['scenario']}]: {len(lost)} obligations discharged on the baseline tree cannot be generated "
                         f"from the current source ({str(r['out_of_subset'][0])[:160]})")
    for e in checker_errors:
        lines.append('CHECKER-ERROR ' + e)
    lines.extend(run_notes)
    if any(n.startswith('CHECKER-ERROR') for n in run_notes):
        checker_errors.append('deadline')

    all_obs = [dict(o, contract=r['contract']) for r in ded for o in r['obligations']]
    n_ob = len(all_obs)
    n_dis = sum(1 for o in all_obs if o['status'] == 'discharged')
    n_known = sum(1 for o in all_obs if o['status'] == 'known-finding')
    open_obs = [o for o in all_obs if o['status'] not in ('discharged', 'known-finding', 'skipped')]
    n_skipped = sum(1 for o in all_obs if o['status'] == 'skipped')
    oos = [(r['contract'], m) for r in ded for m in r['out_of_subset']]

    # known findings: witness must still reproduce natively (bounded replay) before the line is printed
    def witness_reproduces(k) -> bool:
        w = k.get('witness')
        if not w:
            return True
        try:
            chk = next(c for c in prop.bounded if c.name == w['bounded_check'])
            return bool(chk.replay(w['case']))
        except StopIteration:
            return True
        except Exception:  # noqa: BLE001
            return False

    for o in all_obs:
        if o['status'] == 'known-finding':
            for kid in o['known']:
                k = next(x for x in known if x['id'] == kid)
                if kid in known_printed:
                    continue
                if witness_reproduces(k):
                    known_printed.add(kid)
                    lines.append(f"KNOWN-FINDING: property={pid} {k['what']} [{kid}; obligation {o['name']}]")
                else:
                    lines.append(f"CHECKER-ERROR known finding {kid}: obligation fails only inside the listed region but the recorded witness no longer reproduces")
                    checker_errors.append(kid)

    # bounded violations: match against known findings by signature
    bounded_known = [k for k in known if k.get('status') == 'open' and k.get('kind') == 'bounded'
                     and pid in k.get('properties', [k.get('property')])]
    # findings of OTHER properties that a shared bounded check observes incidentally: reported by their own checks only
    foreign = {k['sig'] for k in known if k.get('status') == 'open' and k.get('kind') == 'bounded'
               and pid not in k.get('properties', [k.get('property')])}
    foreign_seen = set()
    new_bounded = []
    seen_sig = set()
    for r in bnd:
        for v in r.get('violation_list', []):
            if v['sig'] in seen_sig:
                continue
            seen_sig.add(v['sig'])
            if v['sig'] in foreign:
                foreign_seen.add(v['sig'])
                continue
            if v['sig'].startswith('encoder.'):
                # the interpreter disagrees with CPython: a bug of the machinery, never a property violation (exit 3)
                lines.append(f"CHECKER-ERROR {v['sig']}: {json.dumps(v['case'], default=str)} real={str(v['expected'])[:200]} interpreter={str(v['observed'])[:200]}")
                checker_errors.append(v['sig'])
                continue
            hit = next((k for k in bounded_known if k['sig'] == v['sig']), None)
            if hit is not None:
                if hit['id'] not in known_printed:
                    known_printed.add(hit['id'])
                    lines.append(f"KNOWN-FINDING: property={pid} {hit['what']} [{hit['id']}; bounded clause {v['clause']}]")
            else:
                new_bounded.append((r['name'], v))
    # open deductive obligations: concretise on the real code, else definite-sat rule, else undecided
    undecided = []
    used_sigs = set()
    for o in open_obs:
        prev = prop.expected_discharged(o) if hasattr(prop, 'expected_discharged') else True
        conc = None
        try:
            conc = prop.concretise(o) if hasattr(prop, 'concretise') else None
        except Exception as ex:  # noqa: BLE001
            lines.append(f'note: concretiser failed for {o["name"]}: {ex}')
        if conc:
            chk_name, v = conc
            used_sigs.add(v['sig'])
            hit = next((k for k in bounded_known if k['sig'] == v['sig']), None)
            if hit is not None:
                if hit['id'] not in known_printed:
                    known_printed.add(hit['id'])
                    lines.append(f"KNOWN-FINDING: property={pid} {hit['what']} [{hit['id']}; obligation {o['name']}]")
                continue
            path = write_replay(pid, o['name'], {'property': pid, 'obligation': o['name'], 'contract': o['contract'],
                                                'bounded_check': chk_name, 'clause': v['clause'], 'case': v['case'],
                                                'expected': v['expected'], 'observed': v['observed'],
                                                'solver_output': {'backend': o['backend'], 'model': o['model']}})
            violations.append((o['name'], path))
            lines.append(f"VIOLATION property={pid} replay={path}")
            lines.append(f"  obligation {o['name']} [{o['scenario']}] fails; replayed on the real code: case={json.dumps(v['case'], default=str)[:300]} expected={v['expected']!r} observed={v['observed']!r}")
        elif o['status'] != 'failed' and baseline is not None and baseline['tree'] != cur_tree and ob_key(o) in baseline['discharged']:
            # DESIGN 7.3: an obligation that is discharged on the pinned tree and is not discharged on a tree whose source differs
            # (after the retry with 10x budget) is reported; the solver gave no model, so no input can be replayed
            path = write_replay(pid, o['name'], {'property': pid, 'obligation': o['name'], 'contract': o['contract'], 'scenario': o['scenario'],
                                                'path': o['path'], 'reason': 'discharged on the recorded baseline tree, not discharged on the current tree',
                                                'baseline_tree': baseline['tree'], 'current_tree': cur_tree,
                                                'solver_output': {'backend': o['backend'], 'model': o['model'], 'smt2': o.get('smt2')}})
            violations.append((o['name'], path))
            lines.append(f"VIOLATION property={pid} replay={path} no-failing-input-found")
            lines.append(f"  obligation {o['name']} [{o['scenario']}] was discharged on the baseline tree and is not on this one ({o['backend']})")
        elif o['status'] == 'failed' and prev:
            path = write_replay(pid, o['name'], {'property': pid, 'obligation': o['name'], 'contract': o['contract'],
                                                'scenario': o['scenario'], 'path': o['path'],
                                                'solver_output': {'backend': o['backend'], 'model': o['model'],
                                                                  'model_values': o.get('model_values'), 'smt2': o.get('smt2')}})
            violations.append((o['name'], path))
            lines.append(f"VIOLATION property={pid} replay={path} no-failing-input-found")
            lines.append(f"  obligation {o['name']} [{o['scenario']}] refuted by {o['backend']}; model: {str(o['model'])[:400]}")
        else:
            undecided.append(o)
            lines.append(f"UNDECIDED obligation={o['name']} scenario={o['scenario']} backend={o['backend']} fallback={'bounded-pass' if bnd else 'none'}")
    for name, v in [nv for nv in new_bounded if nv[1]['sig'] not in used_sigs][:10]:
        path = write_replay(pid, v['clause'], {'property': pid, 'bounded_check': name, 'clause': v['clause'], 'case': v['case'],
                                              'expected': v['expected'], 'observed': v['observed'], 'sig': v['sig']})
        violations.append((v['clause'], path))
        lines.append(f"VIOLATION property={pid} replay={path}")
        lines.append(f"  bounded clause {v['clause']} fails on the real code: case={json.dumps(v['case'], default=str)[:300]} expected={v['expected']!r} observed={v['observed']!r}")

    for c, m in oos:
        lines.append(f'OUT-OF-SUBSET {c}: {m}')

    # vacuity guards
    if early_stop:
        lines.append(f'note: a bounded check replayed a violation on the real code; {len(tasks_d) - len(ded_by_i)} of {len(tasks_d)} deductive tasks were abandoned (not attempted on this run)')
    if prop.contracts and n_ob == 0 and not checker_errors and not early_stop and not violations:
        lines.append(f'CHECKER-ERROR zero obligations generated for {pid}')
        checker_errors.append('zero obligations')
    for r in bnd:
        if r.get('error'):
            continue
        missing = [c for c in r.get('required_covers', []) if not r['covers'].get(c)]
        if missing and not r.get('skipped'):
            lines.append(f"CHECKER-ERROR bounded check {r['name']}: cover(s) never reached: {missing}")
            checker_errors.append('cover')
    for r in ded:
        need = getattr(next((c for c in prop.contracts if c.qualname == r['contract']), None), 'required_covers', ())
        miss = [c for c in need if c not in r['covers']]
        if miss and not early_stop and not r.get('error') and not r['out_of_subset'] and all(o['status'] in ('discharged', 'known-finding') for o in r['obligations']):
            lost = []
            if baseline is not None and baseline['tree'] != cur_tree:
                now = {ob_key(dict(o, contract=r['contract'])) for o in r['obligations']}
                lost = [k for k in baseline['discharged'] if k.startswith(r['contract'] + '|') and k not in now]
            if lost:
                # an outcome of the function that the contract requires to be reachable (and that was reached on the baseline tree) is no longer
                # reached: the obligations stated for that outcome were discharged on the baseline and cannot be generated now
                path = write_replay(pid, f"{r['contract']}-outcome-no-longer-reached", {
                    'property': pid, 'obligation': f"{r['contract']}/outcomes-reachable {miss}", 'contract': r['contract'],
                    'reason': f'outcome(s) {miss} of the function, reached on the baseline tree, are not reached on this tree; the obligations stated for them are lost',
                    'lost_obligations': lost, 'baseline_tree': baseline['tree'], 'current_tree': cur_tree})
                violations.append((f"{r['contract']}/outcomes-reachable", path))
                lines.append(f"VIOLATION property={pid} replay={path} no-failing-input-found")
                lines.append(f"  obligation {r['contract']}/outcomes-reachable: outcome(s) {miss} reached on the baseline tree are not reached on this one; {len(lost)} obligations stated for them are lost")
                exit_code = 1
            else:
                lines.append(f"CHECKER-ERROR contract {r['contract']}: cover(s) never reached: {miss}")
                checker_errors.append('cover')

    if violations:
        exit_code = 1
    elif checker_errors:
        exit_code = 3
    elif (undecided or oos) and not bnd:
        exit_code = 2

    # ---- evidence ------------------------------------------------------------------------------------
    wall = time.time() - t0
    proved_all = (n_ob > 0 and n_dis == n_ob and not oos)
    level = prop.level if (proved_all or prop.level != 'proof') else 'other'
    from pyvc.libspec import ASSUMPTIONS
    used = sorted({a for r in ded for a in r['assumptions']})
    atext = dict(ASSUMPTIONS)
    for r in raw_ded:
        atext.update({k: v for k, v in (r.get('assumption_text') or {}).items() if v})
    trusted = list(prop.trusted_base) + [f'{a}: {atext.get(a, "")}' for a in used]
    sample_obs = [{k: o[k] for k in ('name', 'scenario', 'status', 'backend', 'seconds')} for o in all_obs[:8]]
    bsum = [{k: v for k, v in r.items() if k != 'violation_list'} for r in bnd]
    evals = sum(r.get('evaluations', 0) for r in bnd)
    nontriv = sum(r.get('distinct_nontrivial', 0) for r in bnd)
    coverage: Dict[str, Any] = {
        'obligations': n_ob, 'discharged': n_dis, 'known_finding_obligations': n_known,
        'failed': sum(1 for o in open_obs if o['status'] == 'failed'), 'undecided': len(undecided), 'skipped_after_failures': n_skipped,
        'checker_cmd': f'./check {pid} --tier {args.tier}',
        'trusted_base': trusted,
        'functions_under_contract': [{'qualname': r['contract'], 'sha256': r['sha256'], 'paths': r['paths'],
                                      'obligations': len(r['obligations']),
                                      'discharged': sum(1 for o in r['obligations'] if o['status'] == 'discharged'),
                                      'scenarios': r['scenarios'], 'outcomes': r['outcomes'],
                                      'out_of_subset': r['out_of_subset'], 'solver_seconds': round(sum(o['seconds'] for o in r['obligations']), 2)}
                                     for r in ded],
        'backends': sorted({o['backend'] for o in all_obs}),
        'solver_seconds_total': round(sum(o['seconds'] for o in all_obs), 2),
        'slowest_obligation_s': max([o['seconds'] for o in all_obs], default=0),
        'samples': sample_obs + [s for r in bnd for s in r.get('samples', [])[:2]],
        'bounded': bsum,
        'evaluations': evals, 'distinct_nontrivial': nontriv,
        'rule': 'bounded layer: cases enumerated/sampled per check (bound stated per check); a case is non-trivial when it reaches the '
                'guarded branch of the clause under test, distinct by canonical input; measured by the harness',
        'known_findings_printed': sorted(known_printed),
        'deductive_tasks': len(tasks_d), 'deductive_tasks_abandoned_after_replayed_violation': (len(tasks_d) - len(ded_by_i)) if early_stop else 0,
        'tree_sha256': cur_tree, 'baseline_tree_sha256': baseline['tree'] if baseline else None,
        'findings_of_other_properties_observed': sorted(foreign_seen),
        'explanation': prop.explanation,
        'cross_checks': [{'name': o['name'], **o['cross']} for o in all_obs if o.get('cross')][:50],
    }
    if evals == 0:
        coverage.pop('evaluations')
        coverage.pop('distinct_nontrivial')
        coverage.pop('rule')
    evidence = {
        'property_id': pid, 'tier': args.tier, 'seed': seed, 'level': level, 'coverage': coverage,
        'assumptions': list(prop.assumptions) + [f'assumed contract {a}' for a in used]
        + [f'known-finding carve-out {k} (hypothesis of this run, not of the contracts)' for k in sorted(known_printed)]
        + [f'out of subset (not proved): {c}: {m}' for c, m in oos]
        + [f'undecided: {o["name"]}' for o in undecided],
        'wall_s': round(wall, 2), 'violations': len(violations),
    }
    os.makedirs(EVIDENCE_DIR, exist_ok=True)
    _write_json_atomically(os.path.join(EVIDENCE_DIR, f'{pid}.json'), evidence)
    if args.update_baseline and (early_stop or violations or _SCRATCH_RUN):
        print('baseline NOT updated: the run reports violations or was made against a scratch copy')
    elif args.update_baseline:
        os.makedirs(BASELINE_DIR, exist_ok=True)
        keys = {}
        for o in all_obs:
            k = ob_key(o)
            keys[k] = keys.get(k, True) and o['status'] == 'discharged'
        with open(os.path.join(BASELINE_DIR, f'{pid}.json'), 'w') as f:
            json.dump({'property': pid, 'tree': cur_tree, 'discharged': sorted(k for k, v in keys.items() if v)}, f, indent=0)
        print(f'baseline updated: {sum(1 for v in keys.values() if v)} obligation keys discharged on tree {cur_tree[:12]}')

    # violations with an input replayed on the real code are printed before those without one
    blocks, rest = [], []
    i = 0
    while i < len(lines):
        if lines[i].startswith('VIOLATION '):
            blk = [lines[i]]
            if i + 1 < len(lines) and lines[i + 1].startswith('  '):
                blk.append(lines[i + 1])
                i += 1
            blocks.append(blk)
        else:
            rest.append(lines[i])
        i += 1
    blocks.sort(key=lambda b: b[0].endswith('no-failing-input-found'))
    lines = [ln for ln in rest if not ln.startswith(('OUT-OF-SUBSET', 'UNDECIDED'))] + [ln for b in blocks for ln in b] \
        + [ln for ln in rest if ln.startswith(('OUT-OF-SUBSET', 'UNDECIDED'))]
    # one VIOLATION line per distinct obligation / clause (at most 8), the rest summarised
    shown, seen_names, extra = [], set(), 0
    i = 0
    while i < len(lines):
        ln = lines[i]
        if ln.startswith('VIOLATION '):
            detail = lines[i + 1] if i + 1 < len(lines) and lines[i + 1].startswith('  ') else ''
            key = detail.split(' [')[0].split(' fails')[0][:160]
            if key in seen_names or len(seen_names) >= 8:
                extra += 1
                i += 2 if detail else 1
                continue
            seen_names.add(key)
        shown.append(ln)
        i += 1
    for ln in shown:
        print(ln)
    if extra:
        print(f'({extra} further violation report(s) of the same obligations / clauses on other paths or scenarios: see the replay directory)')
    print(f'{pid} tier={args.tier}: functions={len(ded)} obligations={n_ob} discharged={n_dis} known-finding={n_known} '
          f'failed={coverage["failed"]} undecided={len(undecided)} out-of-subset={len(oos)} '
          f'bounded-evaluations={evals} violations={len(violations)} wall={wall:.1f}s exit={exit_code}')
    return exit_code


if __name__ == '__main__':
    _code = main()
    # Everything is written by now.  Leave without the interpreter's exit handlers: after an early stop the worker
    # processes were killed, and concurrent.futures' exit hook then prints an 'Exception ignored' traceback about its
    # closed wake-up pipe - noise after the summary line, nothing else.
    sys.stdout.flush()
    sys.stderr.flush()
    os._exit(_code)
