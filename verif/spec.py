"""Per-property specification object: which contracts, which bounded checks, what level is claimed."""
from __future__ import annotations

from dataclasses import dataclass, field
from typing import Any, Dict, List, Optional, Sequence, Tuple

COMMON_TRUSTED = [
    'pyvc itself (the verification-condition generator in /verif/pyvc: ast interpreter, value encodings, loop cut) - defended by '
    'the CPython cross-check and the seeded-mutant self-test',
    'z3 4.x/5.1 (in-process) and, in the thorough tier, cvc5 1.0.3 and z3 4.8.12 on the SMT-LIB2 dumps',
    'CPython 3.12 semantics as encoded (DESIGN 3.2): int = mathematical Int, float = IEEE binary64 RNE, left-to-right evaluation, '
    'exception propagation; the argument expressions of exception constructors are evaluated (they can raise), the message text itself is not kept',
]


@dataclass
class PropertySpec:
    id: str
    contracts: List[Any] = field(default_factory=list)
    bounded: List[Any] = field(default_factory=list)
    level: str = 'other'
    explanation: str = ''
    trusted_base: List[str] = field(default_factory=lambda: list(COMMON_TRUSTED))
    assumptions: List[str] = field(default_factory=list)
    level_text: str = ''
    level_note: str = ''
    technique: str = ''
    design_ref: str = ''
    _cache: Dict[str, Any] = field(default_factory=dict)
    known_sigs: set = field(default_factory=set)

    def concretise(self, ob: dict) -> Optional[Tuple[str, dict]]:
        """Find a real failing input for an open obligation: run the bounded checks that exercise the same function
        (quick bound) with the contract clauses as run-time oracle."""
        qn = ob['contract']
        best = None
        for chk in self.bounded:
            if qn not in getattr(chk, 'concretises', ()):
                continue
            if chk.name not in self._cache:
                self._cache[chk.name] = chk.run('quick', 0)
            res = self._cache[chk.name]
            for v in res.violations:
                j = v.to_json()
                if v.obligation and v.obligation in ob['name']:
                    return chk.name, j
                if best is None and j['sig'] not in self.known_sigs:
                    best = (chk.name, j)      # a new violation found on the same function: the closest real input available
        return best
